"""
standins/cxx.py -- shared machinery of the bounded C++ stand-ins (C03 C05 C07 C08 C18 C19):
real prophyc (--cpp_full_out / --cpp_out) on a schema family, a generated driver compiled by g++
with -fsanitize=address,undefined against /repo's headers, fed byte strings over stdin.
Everything is rebuilt from the tree under test on every run, in a scratch directory that is removed.
Labelled bounded: never counted among discharged obligations.
"""
import os
import subprocess
import sys
from concurrent.futures import ThreadPoolExecutor

from specs import wire as W, family as F
from . import lib

INCLUDE = os.path.join(lib.REPO, 'prophy_cpp', 'include')
CXX = 'g++'
CXXFLAGS = ['-std=c++11', '-O1', '-g0', '-w', '-fsanitize=address,undefined', '-fno-sanitize-recover=undefined',
            '-fno-sanitize=enum',     # C++11 (the project's -std): an out-of-range value cast to an enum is unspecified, not UB
            '-fno-omit-frame-pointer']
ASAN_ENV = {'ASAN_OPTIONS': 'allocator_may_return_null=1:max_allocation_size_mb=256:detect_leaks=0:abort_on_error=0',
            'UBSAN_OPTIONS': 'print_stacktrace=0:halt_on_error=1'}

DRIVER_HEAD = r'''
#include "%(name)s.ppf.hpp"
#include <cstdio>
#include <cstdlib>
#include <cstring>
#include <iostream>
#include <new>
#include <string>
#include <vector>
using namespace prophy;
using namespace prophy::generated;

static size_t g_maxalloc = 0;
void* operator new(size_t n) { if (n > g_maxalloc) g_maxalloc = n; void* p = malloc(n ? n : 1); if (!p) throw std::bad_alloc(); return p; }
void operator delete(void* p) noexcept { free(p); }
void operator delete(void* p, size_t) noexcept { free(p); }

static std::string hex(const uint8_t* p, size_t n)
{ static const char* d = "0123456789abcdef"; std::string s; for (size_t i = 0; i < n; ++i) { s += d[p[i] >> 4]; s += d[p[i] & 15]; } return s; }
static std::vector<uint8_t> unhex(const std::string& s)
{ std::vector<uint8_t> v; for (size_t i = 0; i + 1 < s.size(); i += 2) v.push_back(uint8_t(strtoul(s.substr(i, 2).c_str(), 0, 16))); return v; }

template <class T> void overfill(T&) { }
template <class T> void overwrap(T&) { }

template <class T, endianness E>
void work(const std::vector<uint8_t>& in, int over)
{
    /* exact-size heap copy: any read outside [data, data+size) hits an ASan redzone */
    uint8_t* buf = static_cast<uint8_t*>(malloc(in.size() ? in.size() : 1));
    if (in.size()) memcpy(buf, &in[0], in.size());
    T x;
    g_maxalloc = 0;
    bool ok = x.template decode<E>(buf, in.size());
    std::cout << "ok=" << ok << " maxalloc=" << g_maxalloc;
    if (ok)
    {
        if (over == 1) overfill(x);
        if (over == 2) overwrap(x);
        size_t sz = x.get_byte_size();
        std::vector<uint8_t> v = x.template encode<E>();
        /* exact-size heap buffer: any write outside get_byte_size() bytes hits a redzone */
        uint8_t* out = static_cast<uint8_t*>(malloc(sz ? sz : 1));
        memset(out, 0, sz);
        size_t w = x.template encode<E>(static_cast<void*>(out));
        std::cout << " size=" << sz << " written=" << w << " vec=" << hex(v.data(), v.size()) << ". ptr=" << hex(out, sz) << ".";
        int fixed = int(T::encoded_byte_size);
        std::cout << " fixed=" << fixed;
        std::string t = x.print();
        std::cout << " text=" << hex(reinterpret_cast<const uint8_t*>(t.data()), t.size()) << ".";
        free(out);
    }
    free(buf);
    std::cout << std::endl;
}

template <class T>
void dispatch(char e, const std::vector<uint8_t>& in, int over)
{
    try
    {
        if (e == 'l') work<T, little>(in, over);
        else if (e == 'b') work<T, big>(in, over);
        else work<T, native>(in, over);
    }
    catch (const std::bad_alloc&) { std::cout << " exc=bad_alloc maxalloc=" << g_maxalloc << std::endl; }
    catch (const std::exception& ex) { std::cout << " exc=" << ex.what() << std::endl; }
}
'''

DRIVER_MAIN = r'''
int main()
{
    std::string type, e, op, data;
    while (std::cin >> type >> e >> op >> data)
    {
        std::vector<uint8_t> in = unhex(data == "-" ? std::string() : data);
        int over = op == "over" ? 1 : op == "wrap" ? 2 : 0;
        std::cout << "@" << type << " " << std::flush;
        if (false) { }
%(cases)s
        else std::cout << "unknown-type" << std::endl;
    }
    return 0;
}
'''


def overfill_code(st):
    lines = []
    for f in st.fields:
        if isinstance(f.ty, (W.Array, W.Bytes)) and f.ty.mode == W.LIMITED:
            lines.append('    x.%s.resize(%d);' % (f.name, f.ty.n + 3))
    if not lines:
        return ''
    return 'template <> void overfill<%s>(%s& x)\n{\n%s\n}\n' % (st.name, st.name, '\n'.join(lines))


def overwrap_code(st):
    """arrays counted by an 8-bit sizer filled with more elements than the sizer can count"""
    lines = []
    for f in st.fields:
        if f.sizer_of and isinstance(f.ty, W.Int) and f.ty.size == 1:
            for a in f.sizer_of:
                lines.append('    x.%s.resize(300);' % a)
    if not lines:
        return ''
    return 'template <> void overwrap<%s>(%s& x)\n{\n%s\n}\n' % (st.name, st.name, '\n'.join(lines))


class Unit(object):
    """one schema file + driver binary"""

    def __init__(self, name, text, types):
        self.name, self.text, self.types = name, text, types    # types: list of wire.Struct / wire.Union (with .name)
        self.binary = None
        self.error = None
        self.nodes = None


def build_unit(unit, scratch, raw=False):
    d = scratch.path(unit.name)
    os.makedirs(d)
    src = os.path.join(d, unit.name + '.prophy')
    with open(src, 'w') as f:
        f.write(unit.text)
    args = [src, '--cpp_full_out', d] + (['--cpp_out', d] if raw else [])
    nodes, error, _ = lib.run_prophyc(args)
    if error:
        unit.error = 'prophyc: ' + error
        return unit
    unit.nodes = nodes
    drv = DRIVER_HEAD % {'name': unit.name}
    drv += ''.join(overfill_code(t) + overwrap_code(t) for t in unit.types if isinstance(t, W.Struct))
    cases = ''.join('        else if (type == "%s") dispatch<%s>(e[0], in, over);\n' % (t.name, t.name) for t in unit.types)
    drv += DRIVER_MAIN % {'cases': cases}
    with open(os.path.join(d, 'driver.cpp'), 'w') as f:
        f.write(drv)
    unit.dir = d
    return unit


def compile_unit(unit):
    if unit.error:
        return unit
    d = unit.dir
    objs = []
    procs = []
    for srcname in (unit.name + '.ppf.cpp', 'driver.cpp'):
        obj = os.path.join(d, srcname + '.o')
        objs.append(obj)
        procs.append(subprocess.Popen([CXX] + CXXFLAGS + ['-I', INCLUDE, '-I', d, '-c', os.path.join(d, srcname), '-o', obj],
                                      stdout=subprocess.PIPE, stderr=subprocess.STDOUT))
    out = b''
    for p in procs:
        o, _ = p.communicate()
        out += o
        if p.returncode != 0:
            unit.error = 'g++: ' + out.decode('utf-8', 'replace')[-3000:]
    if unit.error:
        return unit
    binary = os.path.join(d, 'driver')
    p = subprocess.run([CXX] + CXXFLAGS + objs + ['-o', binary], stdout=subprocess.PIPE, stderr=subprocess.STDOUT)
    if p.returncode != 0:
        unit.error = 'link: ' + p.stdout.decode('utf-8', 'replace')[-3000:]
    else:
        unit.binary = binary
    return unit


def build_all(units, scratch, raw=False, jobs=8):
    # prophyc runs in-process (serial, fast); g++ in parallel
    for u in units:
        build_unit(u, scratch, raw)
    with ThreadPoolExecutor(max_workers=jobs) as ex:
        list(ex.map(compile_unit, units))
    return units


def parse_line(line):
    """'@T ok=1 maxalloc=.. size=..' -> dict"""
    out = {}
    parts = line.strip().split()
    if not parts or not parts[0].startswith('@'):
        return None
    out['type'] = parts[0][1:]
    for p in parts[1:]:
        if '=' in p:
            k, v = p.split('=', 1)
            out[k] = v
        else:
            out[p] = True
    for k in ('vec', 'ptr', 'text'):
        if k in out:
            out[k] = bytes.fromhex(out[k].rstrip('.'))
    for k in ('ok', 'maxalloc', 'size', 'written', 'fixed'):
        if k in out:
            out[k] = int(out[k])
    return out


def run_requests(unit, requests):
    """requests: list of (type, e, op, bytes).  Returns a list of results aligned with requests: dict (parsed) or
    {'crash': stderr text} when the process died on that request (sanitizer report / signal)."""
    results = []
    env = dict(os.environ)
    env.update(ASAN_ENV)
    i = 0
    while i < len(requests):
        batch = requests[i:]
        inp = ''.join('%s %s %s %s\n' % (t, e, op, b.hex() if b else '-') for t, e, op, b in batch).encode()
        p = subprocess.run([unit.binary], input=inp, stdout=subprocess.PIPE, stderr=subprocess.PIPE, env=env)
        lines = p.stdout.decode('utf-8', 'replace').split('\n')
        done = 0
        for ln in lines:
            r = parse_line(ln)
            if r is None:
                continue
            if 'ok' in r or 'exc' in r or 'unknown-type' in r:
                results.append(r)
                done += 1
            else:
                break       # partial line: the process died while working on this request
        if done < len(batch):
            results.append({'crash': p.stderr.decode('utf-8', 'replace')[:2500], 'returncode': p.returncode})
            done += 1
        i += done
    return results


def family(seed, tier, salt, count=None, with_unions=True, chunk=20):
    """list of Units over the schema family the C++ full generator accepts (distinct sizers)"""
    rng = F.rng_for(seed, 'cxx/' + salt)
    count = count or (60 if tier == 'quick' else 400)
    structs = F.sample_structs(rng, count, 4, with_floats=False, distinct_sizers=True)
    if tier != 'quick':
        structs += F.all_structs(2, distinct_sizers=True)
    unions = []
    if with_unions:
        unions = [F.build_union('UU%d' % i, [rng.choice(F.FIXED_TYPES) for _ in range(rng.randint(1, 4))])
                  for i in range(6 if tier == 'quick' else 40)]
        if tier != 'quick':
            unions += F.all_unions()
    # fixed probes of the recorded findings (known_findings.json), so that they are reported on every run
    probes = [F.build_struct('KF0', [('optional', 'FL', 0), ('plain', 'u8', 0)], True),
              F.build_struct('KF1', [('ext', 'u32', 0), ('plain', 'u16', 0)], True)]
    # every member kind at least once, independent of the seed
    probes += [F.build_struct(n, ks, True) for n, ks in F.CXX_PROBES]
    items = probes + unions + structs
    units = []
    for k in range(0, len(items), chunk):
        part = items[k:k + chunk]
        units.append(Unit('f%d' % (k // chunk), F.Pool.TEXT + ''.join(t for t, _ in part), [st for _, st in part]))
    return units, rng
