"""
specs/text.py -- the text rendering of a message (property C18), written from the property statement:
one 'name: value' line per scalar in declaration order, enumerators by name, bytes as a quoted escaped string,
array elements repeated under the field name, absent optionals and array counters omitted, only the
discriminated union arm, nested composites as 'name { ... }' blocks indented by two spaces per level.
Pure functions over the abstract schema / value of specs.wire.
"""
from . import wire as W


def escape_byte(b):
    if b == 9:
        return '\\t'
    if b == 10:
        return '\\n'
    if b == 13:
        return '\\r'
    if b == 92:
        return '\\\\'
    if 32 <= b <= 126:
        return chr(b)
    return '\\x%02x' % b


def quoted(bs):
    return "'" + ''.join(escape_byte(b) for b in bs) + "'"


def in_domain(t, v):
    """values the property quantifies over: bytes whose Python repr uses single quotes (no 0x27 byte)"""
    if isinstance(t, W.Bytes):
        return 39 not in v
    if isinstance(t, W.Array):
        return all(in_domain(t.elem, x) for x in v)
    if isinstance(t, W.Optional):
        return v is None or in_domain(t.base, v)
    if isinstance(t, W.Struct):
        return all(in_domain(f.ty, v[f.name]) for f in t.fields if not f.sizer_of)
    if isinstance(t, W.Union):
        arm = [a for a in t.arms if a.disc == v[0]][0]
        return in_domain(arm.ty, v[1])
    return not isinstance(t, W.Float)


def field(name, ty, val, level):
    ind = '  ' * level
    if isinstance(ty, W.Optional):
        return '' if val is None else field(name, ty.base, val, level)
    if isinstance(ty, W.Array):
        return ''.join(field(name, ty.elem, x, level) for x in val)
    if isinstance(ty, (W.Struct, W.Union)):
        return '%s%s {\n%s%s}\n' % (ind, name, render(ty, val, level + 1), ind)
    if isinstance(ty, W.Bytes):
        return '%s%s: %s\n' % (ind, name, quoted(val))
    if isinstance(ty, W.Enum):
        names = [n for n, x in ty.values if x == val]
        return '%s%s: %s\n' % (ind, name, names[0])
    return '%s%s: %d\n' % (ind, name, val)


def render(t, v, level=0):
    if isinstance(t, W.Struct):
        return ''.join(field(f.name, f.ty, v[f.name], level) for f in t.fields if not f.sizer_of)
    if isinstance(t, W.Union):
        arm = [a for a in t.arms if a.disc == v[0]][0]
        return field(arm.name, arm.ty, v[1], level)
    raise TypeError(t)
