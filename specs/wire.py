"""
specs/wire.py -- docs/encoding.rst transcribed as total, structurally recursive Python functions.

This is the *oracle* of C01/C02/C03/C04/C05/C08/C19: nothing here is derived from prophy's code.
Each function cites the paragraph of encoding.rst it transcribes.  The same text is
 (a) executed natively (replay of counterexamples, bounded stand-ins), and
 (b) used by the sidecar contracts: the integer helpers (rup, pad_to, opt_*, union_*) are written
     with operators only, so they evaluate on concrete ints and on the symbolic wrappers of pyvc
     alike ("one text, two uses").

Abstract schema
    Int(size, signed) | Float(size) | Enum(values, size=4)
    Bytes(mode, n)            mode in FIXED / LIMITED / DYNAMIC / GREEDY
    Array(mode, n, elem)
    Optional(base)
    Struct(name, fields)      fields: [Field(name, ty, sizer_of=[array names], shift)]
    Union(name, arms)         arms:   [Arm(disc, name, ty)]
A dynamic/limited array or bytes field names its counter field (`bound`); the counter is an
ordinary Int field of the struct marked `sizer_of`.

Values
    Int/Enum -> int, Float -> float, Bytes -> bytes, Array -> list, Optional -> None | value,
    Struct -> dict (no entries for sizer fields), Union -> (disc, value)
"""
import struct as _struct

FIXED, LIMITED, DYNAMIC, GREEDY = 'fixed', 'limited', 'dynamic', 'greedy'
K_FIXED, K_DYNAMIC, K_UNLIMITED = 0, 1, 2      # "stiffness" order: FIXED < DYNAMIC < UNLIMITED


# --------------------------------------------------------------------------- integer helpers
# (operators only: usable on ints and on pyvc symbolic integers)

def rup(x, a):
    """round x up to a multiple of a (a >= 1)  -- "aligned to address divisible by its alignment" """
    return x + (a - x % a) % a


def pad_to(x, a):
    """number of padding bytes needed at offset x to reach a multiple of a"""
    return (a - x % a) % a


def opt_alignment(base_alignment):
    """Optional padding: flag is a 32-bit integer, value may need more  -> max(4, A(base))"""
    return base_alignment if base_alignment > 4 else 4


def opt_size(base_size, base_alignment):
    """Optional: flag, padding up to the value's alignment, value (NOT rounded: "Optional padding")"""
    return opt_alignment(base_alignment) + base_size


def union_alignment(max_arm_alignment):
    """Union padding: discriminator is a 32-bit integer"""
    return max_arm_alignment if max_arm_alignment > 4 else 4


def union_size(max_arm_size, max_arm_alignment):
    """Union: discriminator padded to union alignment + largest arm, padded to multiple of alignment"""
    a = union_alignment(max_arm_alignment)
    return rup(a + max_arm_size, a)


# --------------------------------------------------------------------------- schema tree

class Ty(object):
    pass


class Int(Ty):
    def __init__(self, size, signed):
        self.size, self.signed = size, signed

    def fmt(self):
        return {(1, 0): 'B', (2, 0): 'H', (4, 0): 'I', (8, 0): 'Q',
                (1, 1): 'b', (2, 1): 'h', (4, 1): 'i', (8, 1): 'q'}[(self.size, int(self.signed))]

    def lo(self):
        return -(1 << (8 * self.size - 1)) if self.signed else 0

    def hi(self):
        return (1 << (8 * self.size - 1)) - 1 if self.signed else (1 << (8 * self.size)) - 1

    def __repr__(self):
        return '%s%d' % ('i' if self.signed else 'u', self.size * 8)


class Float(Ty):
    def __init__(self, size):
        self.size = size

    def fmt(self):
        return {4: 'f', 8: 'd'}[self.size]

    def __repr__(self):
        return 'r%d' % (self.size * 8)


class Enum(Ty):
    def __init__(self, name, values, size=4):
        self.name, self.values, self.size = name, list(values), size   # values: [(name, int)]

    def fmt(self):
        return {4: 'I', 1: 'B'}[self.size]

    def __repr__(self):
        return 'enum %s' % self.name


class Bytes(Ty):
    def __init__(self, mode, n=0, bound=None, shift=0):
        self.mode, self.n, self.bound, self.shift = mode, n, bound, shift

    def __repr__(self):
        return 'bytes<%s %s>' % (self.mode, self.n)


class Array(Ty):
    def __init__(self, mode, n, elem, bound=None, shift=0):
        self.mode, self.n, self.elem, self.bound, self.shift = mode, n, elem, bound, shift

    def __repr__(self):
        return '%r<%s %s>' % (self.elem, self.mode, self.n)


class Optional(Ty):
    def __init__(self, base):
        self.base = base

    def __repr__(self):
        return '%r*' % (self.base,)


class Field(object):
    def __init__(self, name, ty, sizer_of=None, shift=0):
        self.name, self.ty, self.sizer_of, self.shift = name, ty, list(sizer_of or []), shift

    def __repr__(self):
        return '%s:%r%s' % (self.name, self.ty, ('@' + ','.join(self.sizer_of)) if self.sizer_of else '')


class Struct(Ty):
    def __init__(self, name, fields):
        self.name, self.fields = name, list(fields)

    def __repr__(self):
        return 'struct %s{%s}' % (self.name, '; '.join(map(repr, self.fields)))


class Arm(object):
    def __init__(self, disc, name, ty):
        self.disc, self.name, self.ty = disc, name, ty

    def __repr__(self):
        return '%s: %s:%r' % (self.disc, self.name, self.ty)


class Union(Ty):
    def __init__(self, name, arms):
        self.name, self.arms = name, list(arms)

    def __repr__(self):
        return 'union %s{%s}' % (self.name, '; '.join(map(repr, self.arms)))


# --------------------------------------------------------------------------- A, stiff, S

def A(t):
    """alignment.  Numeric types: their size.  Enum: 32-bit.  Bytes: 1.  Array: element's.
    Optional: max(4, A) ("Optional flag ... contribute to struct alignment").
    Composite padding: "Composite alignment is the greatest alignment of its fields"."""
    if isinstance(t, (Int, Float)):
        return t.size
    if isinstance(t, Enum):
        return t.size
    if isinstance(t, Bytes):
        return 1
    if isinstance(t, Array):
        return A(t.elem)
    if isinstance(t, Optional):
        return opt_alignment(A(t.base))
    if isinstance(t, Struct):
        r = 1
        for f in t.fields:
            r = max(r, A(f.ty))
        return r
    if isinstance(t, Union):
        r = 1
        for a in t.arms:
            r = max(r, A(a.ty))
        return union_alignment(r)
    raise TypeError(t)


def stiff(t):
    """FIXED / DYNAMIC / UNLIMITED.  Dynamic struct: "containing dynamic arrays directly or
    indirectly".  Unlimited struct: "contains greedy array or unlimited struct in the last field".
    A struct is at least as stiff-less as its stiffest member (max over fields)."""
    if isinstance(t, (Int, Float, Enum, Union)):
        return K_FIXED
    if isinstance(t, (Bytes, Array)):
        if t.mode == GREEDY:
            return K_UNLIMITED
        if t.mode == DYNAMIC:
            return K_DYNAMIC
        return K_FIXED
    if isinstance(t, Optional):
        return K_FIXED
    if isinstance(t, Struct):
        r = K_FIXED
        for f in t.fields:
            r = max(r, stiff(f.ty))
        return r
    raise TypeError(t)


def is_dynamic_field(t):
    """a field after which a new block starts ("blocks which end with dynamic fields")"""
    return stiff(t) != K_FIXED


def blk(s, i):
    """Fields following dynamic fields: alignment to re-establish after dynamic field i =
    greatest alignment of the block that follows (up to and including the next dynamic field);
    1 when nothing follows."""
    r = 1
    for f in s.fields[i + 1:]:
        r = max(r, A(f.ty))
        if is_dynamic_field(f.ty):
            break
    return r


def S(t):
    """wire size of a FIXED type."""
    if isinstance(t, (Int, Float, Enum)):
        return t.size
    if isinstance(t, Bytes):
        assert t.mode in (FIXED, LIMITED)
        return t.n
    if isinstance(t, Array):
        assert t.mode in (FIXED, LIMITED)
        return t.n * S(t.elem)
    if isinstance(t, Optional):
        return opt_size(S(t.base), A(t.base))
    if isinstance(t, Union):
        ms, ma = 0, 1
        for a in t.arms:
            ms, ma = max(ms, S(a.ty)), max(ma, A(a.ty))
        return union_size(ms, ma)
    if isinstance(t, Struct):
        assert stiff(t) == K_FIXED
        off = 0
        for f in t.fields:
            off = rup(off, A(f.ty)) + S(f.ty)
        return rup(off, A(t))
    raise TypeError(t)


def min_size(t):
    """smallest possible encoding length (used by C06/C07 termination/allocation arguments)"""
    if stiff(t) == K_FIXED:
        return S(t)
    if isinstance(t, (Bytes, Array)):
        return 0
    off = 0
    for i, f in enumerate(t.fields):
        off = rup(off, A(f.ty)) + min_size(f.ty)
        if is_dynamic_field(f.ty):
            off = rup(off, blk(t, i))
    return rup(off, A(t))


# --------------------------------------------------------------------------- layout and encoding
# slots: ('pad', n) | ('scalar', fmt, x) | ('raw', bytes)   -- byte order is applied by render()

def _sizer_value(s, v, field):
    lens = set(len(v[a]) for a in field.sizer_of)
    if len(lens) != 1:
        raise SizerMismatch(field.name)
    return lens.pop() + field.shift


class SizerMismatch(Exception):
    pass


def layout(t, v, parent=None, field=None):
    if isinstance(t, (Int, Float, Enum)):
        return [('scalar', t.fmt(), v)]
    if isinstance(t, Bytes):
        if t.mode in (FIXED, LIMITED):
            return [('raw', bytes(v)), ('pad', t.n - len(v))]
        return [('raw', bytes(v))]
    if isinstance(t, Array):
        out = []
        for e in v:
            out += layout(t.elem, e)
        if t.mode == LIMITED:
            out.append(('pad', t.n * S(t.elem) - slots_len(out)))
        return out
    if isinstance(t, Optional):
        a = opt_alignment(A(t.base))
        if v is None:
            return [('scalar', 'I', 0), ('pad', a - 4), ('pad', S(t.base))]
        return [('scalar', 'I', 1), ('pad', a - 4)] + layout(t.base, v)
    if isinstance(t, Union):
        disc, val = v
        arm = [x for x in t.arms if x.disc == disc][0]
        out = [('scalar', 'I', disc), ('pad', A(t) - 4)] + layout(arm.ty, val)
        out.append(('pad', S(t) - slots_len(out)))
        return out
    if isinstance(t, Struct):
        out, off = [], 0
        for i, f in enumerate(t.fields):
            p = pad_to(off, A(f.ty))
            out.append(('pad', p))
            if f.sizer_of:
                sl = [('scalar', f.ty.fmt(), _sizer_value(t, v, f))]
            else:
                sl = layout(f.ty, v[f.name])
            out += sl
            off += p + slots_len(sl)
            if is_dynamic_field(f.ty):
                p = pad_to(off, blk(t, i))
                out.append(('pad', p))
                off += p
        out.append(('pad', pad_to(off, A(t))))
        return out
    raise TypeError(t)


def slots_len(slots):
    n = 0
    for s in slots:
        if s[0] == 'pad':
            n += s[1]
        elif s[0] == 'scalar':
            n += _struct.calcsize('<' + s[1])
        else:
            n += len(s[1])
    return n


def render(slots, e):
    out = b''
    for s in slots:
        if s[0] == 'pad':
            assert s[1] >= 0, s
            out += b'\x00' * s[1]
        elif s[0] == 'scalar':
            out += _struct.pack(e + s[1], s[2])
        else:
            out += s[1]
    return out


def enc(t, v, e):
    """the canonical encoding"""
    return render(layout(t, v), e)


def field_offsets(t, v):
    """start offset of each field of struct t holding v, plus the total length"""
    offs, off = [], 0
    for i, f in enumerate(t.fields):
        off += pad_to(off, A(f.ty))
        offs.append(off)
        if f.sizer_of:
            off += f.ty.size
        else:
            off += len(enc(f.ty, v[f.name], '<'))
        if is_dynamic_field(f.ty):
            off += pad_to(off, blk(t, i))
    return offs, off + pad_to(off, A(t))


# --------------------------------------------------------------------------- values

def wf_value(t, v):
    """in-range ints, enum membership, array limits, bytes lengths, sizer range"""
    if isinstance(t, Int):
        return isinstance(v, int) and t.lo() <= v <= t.hi()      # bool is an int (True == 1): accepted like CPython does
    if isinstance(t, Float):
        return isinstance(v, (int, float))
    if isinstance(t, Enum):
        return v in [x for _, x in t.values]
    if isinstance(t, Bytes):
        if not isinstance(v, bytes):
            return False
        if t.mode == FIXED:
            return len(v) == t.n
        if t.mode == LIMITED:
            return len(v) <= t.n
        return True
    if isinstance(t, Array):
        if not isinstance(v, list):
            return False
        if t.mode == FIXED and len(v) != t.n:
            return False
        if t.mode == LIMITED and len(v) > t.n:
            return False
        return all(wf_value(t.elem, x) for x in v)
    if isinstance(t, Optional):
        return v is None or wf_value(t.base, v)
    if isinstance(t, Union):
        arms = [a for a in t.arms if a.disc == v[0]]
        return len(arms) == 1 and wf_value(arms[0].ty, v[1])
    if isinstance(t, Struct):
        for f in t.fields:
            if f.sizer_of:
                lens = set(len(v[a]) for a in f.sizer_of)
                if len(lens) != 1:
                    return False
                if not (f.ty.lo() <= lens.pop() + f.shift <= f.ty.hi()):
                    return False
            elif not wf_value(f.ty, v[f.name]):
                return False
        return True
    raise TypeError(t)


def default_value(t):
    if isinstance(t, Int):
        return 0
    if isinstance(t, Float):
        return 0.0
    if isinstance(t, Enum):
        return t.values[0][1]
    if isinstance(t, Bytes):
        return b'\x00' * t.n if t.mode == FIXED else b''
    if isinstance(t, Array):
        return [default_value(t.elem) for _ in range(t.n)] if t.mode == FIXED else []
    if isinstance(t, Optional):
        return None
    if isinstance(t, Union):
        return (t.arms[0].disc, default_value(t.arms[0].ty))
    if isinstance(t, Struct):
        return {f.name: default_value(f.ty) for f in t.fields if not f.sizer_of}
    raise TypeError(t)


def overaligned_part(t):
    """schema shape of a recorded C09 finding: a block that follows a dynamic field is less aligned than the block before
    it (the raw C++ part helper rounds the end of its dynamic field up to its own part's alignment first)"""
    if not isinstance(t, Struct):
        return False
    dyn = [i for i, f in enumerate(t.fields) if is_dynamic_field(f.ty) and i < len(t.fields) - 1]
    aligns = [blk(t, i) for i in dyn]
    return any(aligns[j] > aligns[j + 1] for j in range(len(aligns) - 1))


def greedy_aligned(t, v):
    """C02's documented exception: a greedy tail must end on the enclosing message's alignment"""
    if not isinstance(t, Struct) or stiff(t) != K_UNLIMITED:
        return True
    offs, total = field_offsets(t, v)
    unpadded = offs[-1] + len(enc(t.fields[-1].ty, v[t.fields[-1].name], '<'))
    return unpadded % A(t) == 0 and greedy_aligned(t.fields[-1].ty, v[t.fields[-1].name])


# --------------------------------------------------------------------------- C04/C05/C08: the model's padding representation
# prophyc publishes, per struct member j, a `padding` that its generators replay after the member:
#   padding >= 0: advance by that many bytes;  padding < 0: align the cursor to -padding.
# The documented layout determines it: with effective member alignments a[j] (block-bumped per
# "Fields following dynamic fields"), static sizes s[j] and value-dependence flags d[j]:

def off_static_step(off, a_k, s_k):
    """static running offset after member k: members are laid out back to back, each aligned"""
    return rup(off, a_k) + s_k


def pad_inner(off_next_start, a_j, d_j, a_next, static_pad):
    """padding recorded on member j (not the last): a value-dependent member followed by a more
    aligned block must be aligned at run time; otherwise the static distance applies"""
    return -a_next if (d_j and a_j < a_next) else static_pad


def pad_last(any_dynamic, a_last, s_last, struct_alignment, static_pad):
    """padding recorded on the last member: every composite's size is a multiple of its alignment"""
    if any_dynamic:
        return -struct_alignment if (a_last < struct_alignment or s_last % struct_alignment != 0) else 0
    return static_pad


def blk_step(a_field, dyn_field, acc):
    """"Fields following dynamic fields", scanned from the last field backwards: `acc` is the greatest
    alignment of the fields after the current one up to and including the next dynamic field; passing
    a dynamic field starts a new block (whose first member is that dynamic field itself)"""
    inner = 1 if dyn_field else acc
    return a_field if a_field > inner else inner
