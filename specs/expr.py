"""
specs/expr.py -- integer semantics of prophy constant expressions (C14): decimal / octal / hex literals,
+ - * / << >>, unary minus, parentheses, | (isar bitMaskOr); all over the mathematical integers,
`/` is integer (floor) division (the property restricts it to non-negative operands and a non-zero divisor).
"""

PRECEDENCE = (                      # lowest to highest; shifts bind tighter than * / (prophy's, not C's, convention)
    ('left', '+', '-'),
    ('left', '*', '/'),
    ('left', 'LSHIFT', 'RSHIFT'),
    ('right', 'UMINUS'),
)


def binop(op, a, b):
    if op == '+':
        return a + b
    if op == '-':
        return a - b
    if op == '*':
        return a * b
    if op == '/':
        return a // b
    if op == '<<':
        return a << b
    if op == '>>':
        return a >> b
    if op == '|':
        return a | b
    raise ValueError(op)


def literal(text):
    """decimal, 0x hex, leading-0 octal"""
    if text.startswith(('0x', '0X')):
        return int(text, 16)
    if len(text) > 1 and text.startswith('0'):
        return int(text, 8)
    return int(text)
