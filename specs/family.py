"""
specs/family.py -- enumerated / sampled schema family used by replay (system-level witness search)
and by the bounded stand-ins.  Produces prophy-language text *and* the abstract schema (specs.wire)
it denotes, plus boundary values.  Pure Python, no prophy import.
"""
import random

from . import wire as W

SCALARS = [('u8', 1, 0), ('u16', 2, 0), ('u32', 4, 0), ('u64', 8, 0),
           ('i8', 1, 1), ('i16', 2, 1), ('i32', 4, 1), ('i64', 8, 1)]


class Pool(object):
    """helper types every generated file starts with"""

    TEXT = """\
enum E { E_A = 0, E_B = 5, E_C = 0xFFFFFFFF };
enum E1 { E1_A = 1, E1_C = 3, E1_B = 2 };
struct F8 { u8 a; };
struct F16 { u8 a; u16 b; };
struct F64 { u32 a; u64 b; u8 c; };
struct F12 { u32 a; u32 b; u32 c; };
struct FO { u8* a; u8 b; };
struct FL { u16 a<2>; u8 b; };
struct FO8 { u64* a; };
union U4 { 1: u8 a; 2: u16 b; };
union U8 { 0: u64 a; 3: u8 b; 7: F16 c; };
union U12 { 0: u64 a; 4: F12 b; };
struct D1 { u8 a<>; };
struct D8 { u64 a<>; u8 b; };
struct DD { D1 d; u16 t; };
struct G1 { u8 g<...>; };
struct G16 { u32 x; u16 g<...>; };
typedef u16 TU16;
typedef F64 TF64;
"""

    def __init__(self):
        u8, u16, u32, u64 = (W.Int(1, False), W.Int(2, False), W.Int(4, False), W.Int(8, False))
        self.t = t = {}
        for n, s, sg in SCALARS:
            t[n] = W.Int(s, bool(sg))
        t['r32'], t['r64'] = W.Float(4), W.Float(8)
        t['E'] = W.Enum('E', [('E_A', 0), ('E_B', 5), ('E_C', 0xFFFFFFFF)])
        t['E1'] = W.Enum('E1', [('E1_A', 1), ('E1_C', 3), ('E1_B', 2)])   # gapless, not in ascending order
        t['F8'] = W.Struct('F8', [W.Field('a', u8)])
        t['F16'] = W.Struct('F16', [W.Field('a', u8), W.Field('b', u16)])
        t['F64'] = W.Struct('F64', [W.Field('a', u32), W.Field('b', u64), W.Field('c', u8)])
        t['F12'] = W.Struct('F12', [W.Field('a', u32), W.Field('b', u32), W.Field('c', u32)])
        t['FO'] = W.Struct('FO', [W.Field('a', W.Optional(u8)), W.Field('b', u8)])
        t['FL'] = W.Struct('FL', [W.Field('num_of_a', u32, ['a']), W.Field('a', W.Array(W.LIMITED, 2, u16, 'num_of_a')),
                                  W.Field('b', u8)])
        t['FO8'] = W.Struct('FO8', [W.Field('a', W.Optional(u64))])
        t['U4'] = W.Union('U4', [W.Arm(1, 'a', u8), W.Arm(2, 'b', u16)])
        t['U8'] = W.Union('U8', [W.Arm(0, 'a', u64), W.Arm(3, 'b', u8), W.Arm(7, 'c', t['F16'])])
        t['U12'] = W.Union('U12', [W.Arm(0, 'a', u64), W.Arm(4, 'b', t['F12'])])
        t['D1'] = W.Struct('D1', [W.Field('num_of_a', u32, ['a']), W.Field('a', W.Array(W.DYNAMIC, 0, u8, 'num_of_a'))])
        t['D8'] = W.Struct('D8', [W.Field('num_of_a', u32, ['a']), W.Field('a', W.Array(W.DYNAMIC, 0, u64, 'num_of_a')),
                                  W.Field('b', u8)])
        t['DD'] = W.Struct('DD', [W.Field('d', t['D1']), W.Field('t', u16)])
        t['G1'] = W.Struct('G1', [W.Field('g', W.Array(W.GREEDY, 0, u8))])
        t['G16'] = W.Struct('G16', [W.Field('x', u32), W.Field('g', W.Array(W.GREEDY, 0, u16))])
        t['TU16'] = u16
        t['TF64'] = t['F64']


POOL = Pool()

FIXED_TYPES = ['u8', 'u16', 'u32', 'u64', 'i8', 'i16', 'i32', 'i64', 'E', 'E1', 'F8', 'F16', 'F64', 'F12', 'FO', 'FL', 'FO8',
               'U4', 'U8', 'U12', 'TU16', 'TF64']
DYN_TYPES = ['D1', 'D8', 'DD']
UNL_TYPES = ['G1', 'G16']
FLOAT_TYPES = ['r32', 'r64']
PTEXT = {'r32': 'float', 'r64': 'double'}


def member_kinds(with_floats=False):
    """abstract member kinds: (kind, type name, n)"""
    kinds = []
    fixed = FIXED_TYPES + (FLOAT_TYPES if with_floats else [])
    for t in fixed:
        kinds.append(('plain', t, 0))
        kinds.append(('fixed', t, 3))
        kinds.append(('dynamic', t, 0))
        kinds.append(('limited', t, 2))
        kinds.append(('ext', t, 0))
        kinds.append(('optional', t, 0))
    for t in DYN_TYPES:
        kinds.append(('plain', t, 0))
        kinds.append(('dynamic', t, 0))
        kinds.append(('ext', t, 0))
    kinds += [('bfixed', 'byte', 3), ('bdynamic', 'byte', 0), ('blimited', 'byte', 5), ('bext', 'byte', 0)]
    return kinds


def last_only_kinds():
    kinds = [('plain', t, 0) for t in UNL_TYPES]
    kinds += [('greedy', t, 0) for t in FIXED_TYPES + DYN_TYPES]
    kinds.append(('bgreedy', 'byte', 0))
    return kinds


def build_struct(name, kinds, distinct_sizers=False):
    """kinds: list of (kind, type, n) -> (text, wire.Struct).  ext arrays share one u8 sizer 'sz'
    placed first (so an over-long array cannot be encoded: values keep within 255); with
    distinct_sizers every ext array gets its own sizer sz<i> (what the C++ full generator accepts)."""
    lines, fields = [], []
    szname = {}
    # ('sizer', int type, j): the sizer of the ext array j members further on, declared at this position
    # (possibly in a later part of the struct than the main one) instead of at the front
    for i, k in enumerate(kinds):
        if k[0] == 'sizer':
            assert kinds[i + k[2]][0] in ('ext', 'bext'), kinds
            szname[i + k[2]] = 'sz%d' % (i + k[2])
    if distinct_sizers:
        for i, k in enumerate(kinds):
            if k[0] in ('ext', 'bext') and i not in szname:
                szname[i] = 'sz%d' % i
                lines.append('u8 sz%d;' % i)
                fields.append(W.Field('sz%d' % i, W.Int(1, False), ['m%d' % i]))
    elif any(k[0] in ('ext', 'bext') and i not in szname for i, k in enumerate(kinds)):
        ext_names = ['m%d' % i for i, k in enumerate(kinds) if k[0] in ('ext', 'bext') and i not in szname]
        lines.append('u8 sz;')
        fields.append(W.Field('sz', W.Int(1, False), ext_names))
    for i, (kind, tn, n) in enumerate(kinds):
        m = 'm%d' % i
        ty = POOL.t.get(tn)
        tt = PTEXT.get(tn, tn)
        u32 = W.Int(4, False)
        if kind == 'sizer':
            lines.append('%s sz%d;' % (tn, i + n)); fields.append(W.Field('sz%d' % (i + n), ty, ['m%d' % (i + n)]))
        elif kind == 'plain':
            lines.append('%s %s;' % (tt, m)); fields.append(W.Field(m, ty))
        elif kind == 'fixed':
            lines.append('%s %s[%d];' % (tt, m, n)); fields.append(W.Field(m, W.Array(W.FIXED, n, ty)))
        elif kind == 'dynamic':
            lines.append('%s %s<>;' % (tt, m))
            fields.append(W.Field('num_of_' + m, u32, [m]))
            fields.append(W.Field(m, W.Array(W.DYNAMIC, 0, ty, 'num_of_' + m)))
        elif kind == 'limited':
            lines.append('%s %s<%d>;' % (tt, m, n))
            fields.append(W.Field('num_of_' + m, u32, [m]))
            fields.append(W.Field(m, W.Array(W.LIMITED, n, ty, 'num_of_' + m)))
        elif kind == 'ext':
            sz = szname.get(i, 'sz')
            lines.append('%s %s<@%s>;' % (tt, m, sz)); fields.append(W.Field(m, W.Array(W.DYNAMIC, 0, ty, sz)))
        elif kind == 'greedy':
            lines.append('%s %s<...>;' % (tt, m)); fields.append(W.Field(m, W.Array(W.GREEDY, 0, ty)))
        elif kind == 'optional':
            lines.append('%s* %s;' % (tt, m)); fields.append(W.Field(m, W.Optional(ty)))
        elif kind == 'bfixed':
            lines.append('bytes %s[%d];' % (m, n)); fields.append(W.Field(m, W.Bytes(W.FIXED, n)))
        elif kind == 'bdynamic':
            lines.append('bytes %s<>;' % m)
            fields.append(W.Field('num_of_' + m, u32, [m]))
            fields.append(W.Field(m, W.Bytes(W.DYNAMIC, 0, 'num_of_' + m)))
        elif kind == 'blimited':
            lines.append('bytes %s<%d>;' % (m, n))
            fields.append(W.Field('num_of_' + m, u32, [m]))
            fields.append(W.Field(m, W.Bytes(W.LIMITED, n, 'num_of_' + m)))
        elif kind == 'bext':
            sz = szname.get(i, 'sz')
            lines.append('bytes %s<@%s>;' % (m, sz)); fields.append(W.Field(m, W.Bytes(W.DYNAMIC, 0, sz)))
        elif kind == 'bgreedy':
            lines.append('bytes %s<...>;' % m); fields.append(W.Field(m, W.Bytes(W.GREEDY, 0)))
        else:
            raise ValueError(kind)
    text = 'struct %s { %s };\n' % (name, ' '.join(lines))
    return text, W.Struct(name, fields)


def build_union(name, arm_types):
    arms, lines = [], []
    for i, tn in enumerate(arm_types):
        d = [1, 2, 9, 0x7FFFFFFF][i % 4] + (i // 4) * 16
        lines.append('%d: %s a%d;' % (d, PTEXT.get(tn, tn), i))
        arms.append(W.Arm(d, 'a%d' % i, POOL.t[tn]))
    return 'union %s { %s };\n' % (name, ' '.join(lines)), W.Union(name, arms)


def all_unions(prefix='UA'):
    """every union of two arms over the fixed type pool (alignment / size interplay of the arms)"""
    out, idx = [], 0
    for i, a in enumerate(FIXED_TYPES):
        for b in FIXED_TYPES[i:]:
            out.append(build_union('%s%d' % (prefix, idx), [a, b]))
            idx += 1
    return out


def sample_structs(rng, count, max_members=4, with_floats=False, prefix='S', distinct_sizers=False):
    """random structs; the last member may be of an unlimited kind"""
    mk, lk = member_kinds(with_floats), last_only_kinds()
    out = []
    for i in range(count):
        n = rng.randint(1, max_members)
        ks = [rng.choice(mk) for _ in range(n)]
        if rng.random() < 0.25:
            ks[-1] = rng.choice(lk)
        if distinct_sizers:
            ks = place_sizers(rng, ks)
        out.append(build_struct('%s%d' % (prefix, i), ks, distinct_sizers))
    return out


def place_sizers(rng, ks):
    """every second ext array gets its sizer (u8, u16 or u32) at a random position before it instead of at the front"""
    items = [[k, None] for k in ks]              # [kind, target item]
    for it in list(items):
        if it[0][0] in ('ext', 'bext') and rng.random() < 0.5:
            p = rng.randint(0, items.index(it))
            items.insert(p, [('sizer', rng.choice(['u8', 'u16', 'u32']), 0), it])
    out = []
    for i, (k, target) in enumerate(items):
        if target is not None:
            j = [x is target for x in items].index(True)
            k = (k[0], k[1], j - i)
        out.append(k)
    return out


def all_structs(max_members, kinds=None, last_kinds=None, prefix='X', distinct_sizers=False):
    """exhaustive over a (reduced) kind list"""
    import itertools
    kinds = kinds or REDUCED_KINDS
    last_kinds = last_kinds if last_kinds is not None else REDUCED_LAST
    out, idx = [], 0
    for n in range(1, max_members + 1):
        for combo in itertools.product(kinds, repeat=n - 1):
            for last in list(kinds) + list(last_kinds):
                out.append(build_struct('%s%d' % (prefix, idx), list(combo) + [last], distinct_sizers))
                idx += 1
    return out


REDUCED_KINDS = [('plain', 'u8', 0), ('plain', 'u16', 0), ('plain', 'u64', 0), ('optional', 'u8', 0), ('optional', 'u64', 0),
                 ('dynamic', 'u8', 0), ('dynamic', 'u64', 0), ('limited', 'u16', 2), ('plain', 'D1', 0), ('plain', 'U8', 0),
                 ('bdynamic', 'byte', 0), ('fixed', 'F16', 3), ('ext', 'u16', 0)]
REDUCED_LAST = [('greedy', 'u16', 0), ('plain', 'G16', 0), ('bgreedy', 'byte', 0)]


# --------------------------------------------------------------------------- values

def gen_value(t, rng, depth=0):
    if isinstance(t, W.Int):
        return rng.choice([t.lo(), t.hi(), 0, 1, rng.randint(t.lo(), t.hi())])
    if isinstance(t, W.Float):
        return rng.choice([0.0, 1.0, -2.5])
    if isinstance(t, W.Enum):
        return rng.choice(t.values)[1]
    if isinstance(t, W.Bytes):
        if t.mode == W.FIXED:
            return bytes(rng.randrange(256) for _ in range(t.n))
        hi = t.n if t.mode == W.LIMITED else 5
        return bytes(rng.randrange(256) for _ in range(rng.randint(0, hi)))
    if isinstance(t, W.Array):
        if t.mode == W.FIXED:
            k = t.n
        elif t.mode == W.LIMITED:
            k = rng.randint(0, t.n)
        else:
            k = rng.choice([0, 1, 2, 3])
        return [gen_value(t.elem, rng, depth + 1) for _ in range(k)]
    if isinstance(t, W.Optional):
        return None if rng.random() < 0.4 else gen_value(t.base, rng, depth + 1)
    if isinstance(t, W.Union):
        arm = rng.choice(t.arms)
        return (arm.disc, gen_value(arm.ty, rng, depth + 1))
    if isinstance(t, W.Struct):
        v = {}
        shared = {}
        for f in t.fields:
            if f.sizer_of and len(f.sizer_of) > 1:
                k = rng.choice([0, 1, 2])
                for a in f.sizer_of:
                    shared[a] = k
        for f in t.fields:
            if f.sizer_of:
                continue
            if f.name in shared:
                k = shared[f.name]
                if isinstance(f.ty, W.Bytes):
                    v[f.name] = bytes(rng.randrange(256) for _ in range(k))
                else:
                    v[f.name] = [gen_value(f.ty.elem, rng, depth + 1) for _ in range(k)]
            else:
                v[f.name] = gen_value(f.ty, rng, depth + 1)
        return v
    raise TypeError(t)


def rng_for(seed, salt):
    return random.Random('%s/%s' % (seed, salt))


# every member kind once, in the combinations the layout rules distinguish (deterministic part of the C++ families)
CXX_PROBES = [
    ('P0', [('plain', 'u8', 0), ('dynamic', 'u16', 0), ('plain', 'u32', 0)]),
    ('P1', [('optional', 'u64', 0), ('limited', 'u16', 2), ('plain', 'D1', 0), ('ext', 'u32', 0)]),
    ('P2', [('plain', 'U8', 0), ('fixed', 'F16', 2), ('plain', 'E', 0), ('greedy', 'u16', 0)]),
    ('P3', [('dynamic', 'D1', 0), ('bdynamic', 'byte', 0), ('plain', 'u64', 0)]),
    ('P4', [('optional', 'F16', 0), ('optional', 'u8', 0), ('dynamic', 'E', 0), ('plain', 'i16', 0)]),
    ('P5', [('ext', 'D8', 0), ('blimited', 'byte', 5), ('plain', 'DD', 0), ('bgreedy', 'byte', 0)]),
    ('P6', [('limited', 'F64', 2), ('optional', 'FO8', 0), ('fixed', 'U12', 3), ('plain', 'G16', 0)]),
    ('P7', [('bext', 'byte', 0), ('plain', 'i64', 0), ('dynamic', 'U4', 0), ('greedy', 'D1', 0)]),
    ('P8', [('bfixed', 'byte', 3), ('plain', 'TF64', 0), ('dynamic', 'FL', 0)]),
    ('P9', [('optional', 'FO', 0), ('optional', 'F64', 0), ('optional', 'E', 0), ('optional', 'U12', 0)]),
    ('P10', [('limited', 'E1', 2), ('ext', 'F12', 0), ('greedy', 'F64', 0)]),
    ('P11', [('ext', 'FO', 0), ('optional', 'F12', 0), ('ext', 'D8', 0)]),
    ('P12', [('dynamic', 'u8', 0), ('optional', 'u16', 0), ('dynamic', 'u64', 0), ('optional', 'u64', 0)]),
    ('P13', [('bdynamic', 'byte', 0), ('limited', 'u8', 2), ('plain', 'D8', 0), ('fixed', 'u16', 3)]),
    # a part (4-aligned) followed by a less aligned part (2): the shape of the recorded C09 finding
    ('P14', [('blimited', 'byte', 5), ('ext', 'F16', 0), ('dynamic', 'i8', 0), ('plain', 'TU16', 0)]),
    # sizers declared in a later part than the main one: before another counted array of the same part (P15),
    # directly before their array (P16), and one part ahead of it (P17)
    ('P15', [('dynamic', 'u32', 0), ('sizer', 'u16', 2), ('limited', 'F12', 3), ('ext', 'u16', 0), ('plain', 'u32', 0)]),
    ('P16', [('bdynamic', 'byte', 0), ('plain', 'u16', 0), ('sizer', 'u32', 1), ('ext', 'F64', 0), ('optional', 'u64', 0)]),
    ('P17', [('dynamic', 'u64', 0), ('sizer', 'u8', 2), ('dynamic', 'F16', 0), ('ext', 'E', 0), ('plain', 'i32', 0)]),
]
