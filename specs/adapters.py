"""
specs/adapters.py -- bridges between the real objects and the abstract schema/value of specs.wire.
Runs under /venv/bin/python (needs prophy / prophyc importable from the tree under test).

  from_class(cls)     prophy generated class  -> wire.Ty
  from_model(node)    prophyc.model node      -> wire.Ty   (what the *member declarations* denote;
                                                           none of the computed attributes is read)
  assign(msg, t, v)   put abstract value v into a real message through the public API
  view(msg, t)        abstract value of a real message (through the public getters)
"""
from . import wire as W


def _prophy():
    import prophy
    return prophy


def from_class(cls, _memo=None):
    prophy = _prophy()
    from prophy.base_array import base_array
    memo = _memo if _memo is not None else {}
    if id(cls) in memo:
        return memo[id(cls)]
    if getattr(cls, '_OPTIONAL', False):
        r = W.Optional(from_class(cls.__bases__[0], memo))
    elif issubclass(cls, base_array):
        size, bound = cls._max_len, cls._BOUND
        mode = W.FIXED if size and not bound else W.LIMITED if size and bound else W.DYNAMIC if bound else W.GREEDY
        r = W.Array(mode, size, from_class(cls._TYPE, memo), bound, getattr(cls, '_BOUND_SHIFT', 0))
    elif issubclass(cls, bytes):
        size, bound = cls._SIZE, cls._BOUND
        mode = W.FIXED if size and not bound else W.LIMITED if size and bound else W.DYNAMIC if bound else W.GREEDY
        r = W.Bytes(mode, size, bound, getattr(cls, '_BOUND_SHIFT', 0))
    elif issubclass(cls, prophy.struct):
        r = W.Struct(cls.__name__, [])
        fields = r.fields
        for f in cls._descriptor:
            if f.type.__name__ == 'container_len':
                arrays = list(f.type._BOUND)
                shift = 0
                for g in cls._descriptor:
                    if g.name in arrays:
                        shift = getattr(g.type, '_BOUND_SHIFT', 0)
                fields.append(W.Field(f.name, from_class(f.type._TYPE, memo), arrays, shift))
            else:
                fields.append(W.Field(f.name, from_class(f.type, memo)))
    elif issubclass(cls, prophy.union):
        r = W.Union(cls.__name__, [W.Arm(f.discriminator, f.name, from_class(f.type, memo)) for f in cls._descriptor])
    elif issubclass(cls, prophy.enum):
        r = W.Enum(cls.__name__, list(cls._enumerators), 1 if issubclass(cls, prophy.enum8) else 4)
    elif issubclass(cls, float):
        r = W.Float(8 if issubclass(cls, prophy.r64) else 4)
    else:
        for name, size, signed in (('u8', 1, 0), ('u16', 2, 0), ('u32', 4, 0), ('u64', 8, 0),
                                   ('i8', 1, 1), ('i16', 2, 1), ('i32', 4, 1), ('i64', 8, 1)):
            if issubclass(cls, getattr(prophy, name)):
                r = W.Int(size, bool(signed))
                break
        else:
            raise TypeError(cls)
    memo[id(cls)] = r
    return r


_BUILTIN = {'u8': (1, 0), 'u16': (2, 0), 'u32': (4, 0), 'u64': (8, 0), 'i8': (1, 1), 'i16': (2, 1), 'i32': (4, 1),
            'i64': (8, 1), 'byte': (1, 0)}


def from_model(node, constants=None, _memo=None):
    """abstract schema denoted by a prophyc.model node.  Reads only declaration attributes
    (type_name / definition / bound / size / greedy / optional / discriminator / members / value)."""
    from prophyc import model
    memo = _memo if _memo is not None else {}
    constants = constants or {}

    def to_int(x):
        try:
            return int(str(x), 0)
        except ValueError:
            v = constants.get(x)
            if v is not None:
                return v
            import re
            if re.match(r'^[\w\s()+\-*/<>|]+$', str(x)):
                # an arithmetic expression over constants (isar size x size2, operators): integer semantics of specs/expr.py
                return int(eval(str(x).replace('/', '//'), {'__builtins__': {}}, dict(constants)))
            raise

    def base_type(type_name, definition):
        if type_name in _BUILTIN:
            s, sg = _BUILTIN[type_name]
            return W.Int(s, bool(sg))
        if type_name in ('r32', 'r64'):
            return W.Float(int(type_name[1:]) // 8)
        if definition is None:
            raise KeyError(type_name)
        return from_model(definition, constants, memo)

    key = id(node)
    if key in memo:
        return memo[key]
    if isinstance(node, model.Struct):
        r = W.Struct(node.name, [])
        fields = r.fields
        sizers = {}
        for m in node.members:
            if m.bound:
                sizers.setdefault(m.bound, []).append(m.name)
        for m in node.members:
            bt = base_type(m.type_name, m.definition)
            is_bytes = m.type_name == 'byte' and (m.bound or m.size or m.greedy)
            if m.optional:
                ty = W.Optional(bt)
            elif m.bound and m.size:
                ty = W.Bytes(W.LIMITED, to_int(m.size), m.bound) if is_bytes else W.Array(W.LIMITED, to_int(m.size), bt, m.bound)
            elif m.bound:
                ty = W.Bytes(W.DYNAMIC, 0, m.bound) if is_bytes else W.Array(W.DYNAMIC, 0, bt, m.bound)
            elif m.size:
                ty = W.Bytes(W.FIXED, to_int(m.size)) if is_bytes else W.Array(W.FIXED, to_int(m.size), bt)
            elif m.greedy:
                ty = W.Bytes(W.GREEDY, 0) if is_bytes else W.Array(W.GREEDY, 0, bt)
            else:
                ty = bt
            fields.append(W.Field(m.name, ty, sizers.get(m.name)))
    elif isinstance(node, model.Union):
        r = W.Union(node.name, [W.Arm(to_int(m.discriminator), m.name, base_type(m.type_name, m.definition))
                                for m in node.members])
    elif isinstance(node, model.Enum):
        r = W.Enum(node.name, [(m.name, to_int(m.value) & 0xFFFFFFFF) for m in node.members])
    elif isinstance(node, model.Typedef):
        r = base_type(node.type_name, node.definition)
    else:
        raise TypeError(node)
    memo[key] = r
    return r


def same_schema(a, b):
    """structural equality of two abstract schemas (names of structs ignored)"""
    if type(a) is not type(b):
        return False
    if isinstance(a, W.Int):
        return (a.size, a.signed) == (b.size, b.signed)
    if isinstance(a, W.Float):
        return a.size == b.size
    if isinstance(a, W.Enum):
        return a.size == b.size and [v for _, v in a.values] == [v for _, v in b.values]
    if isinstance(a, W.Bytes):
        return (a.mode, a.n, a.bound) == (b.mode, b.n, b.bound)
    if isinstance(a, W.Array):
        return (a.mode, a.n, a.bound) == (b.mode, b.n, b.bound) and same_schema(a.elem, b.elem)
    if isinstance(a, W.Optional):
        return same_schema(a.base, b.base)
    if isinstance(a, W.Struct):
        return len(a.fields) == len(b.fields) and all(
            x.name == y.name and sorted(x.sizer_of) == sorted(y.sizer_of) and same_schema(x.ty, y.ty)
            for x, y in zip(a.fields, b.fields))
    if isinstance(a, W.Union):
        return len(a.arms) == len(b.arms) and all(
            (x.disc, x.name) == (y.disc, y.name) and same_schema(x.ty, y.ty) for x, y in zip(a.arms, b.arms))
    return False


# --------------------------------------------------------------------------- values on real messages

LAZY = [False]     # when set, values equal to the default are not assigned (states reachable by `add(discriminator=...)`)


def assign(msg, t, v):
    """store abstract value v (of schema t) into real message msg via the public API"""
    if isinstance(t, W.Struct):
        for f in t.fields:
            if f.sizer_of:
                continue
            _assign_field(msg, f.name, f.ty, v[f.name])
    elif isinstance(t, W.Union):
        disc, val = v
        msg.discriminator = disc
        arm = [a for a in t.arms if a.disc == disc][0]
        if LAZY[0] and val == W.default_value(arm.ty):
            return              # leave the arm value unassigned: it reads as the default
        _assign_field(msg, arm.name, arm.ty, val)
    else:
        raise TypeError(t)


def _assign_field(msg, name, ty, val):
    if isinstance(ty, W.Optional):
        if val is None:
            setattr(msg, name, None)
        elif isinstance(ty.base, (W.Struct, W.Union)):
            setattr(msg, name, True)
            assign(getattr(msg, name), ty.base, val)
        else:
            setattr(msg, name, val)
    elif isinstance(ty, (W.Struct, W.Union)):
        assign(getattr(msg, name), ty, val)
    elif isinstance(ty, W.Array):
        arr = getattr(msg, name)
        if isinstance(ty.elem, (W.Struct, W.Union)):
            if ty.mode == W.FIXED:
                for e, x in zip(arr, val):
                    assign(e, ty.elem, x)
            else:
                del arr[:]
                for x in val:
                    assign(arr.add(), ty.elem, x)
        else:
            arr[:] = list(val)
    else:
        setattr(msg, name, val)


def view(msg, t):
    if isinstance(t, W.Struct):
        out = {}
        for f in t.fields:
            if f.sizer_of:
                continue
            out[f.name] = _view_field(getattr(msg, f.name), f.ty)
        return out
    if isinstance(t, W.Union):
        disc = msg.discriminator
        arm = [a for a in t.arms if a.disc == disc][0]
        return (disc, _view_field(getattr(msg, arm.name), arm.ty))
    raise TypeError(t)


def _view_field(x, ty):
    if isinstance(ty, W.Optional):
        return None if x is None else _view_field(x, ty.base)
    if isinstance(ty, (W.Struct, W.Union)):
        return view(x, ty)
    if isinstance(ty, W.Array):
        return [_view_field(e, ty.elem) for e in x]
    if isinstance(ty, W.Bytes):
        # a never-assigned dynamic/limited bytes field reads as the str '' (prophy's documented default): the empty value
        return b'' if isinstance(x, str) and not x else bytes(x)
    if isinstance(ty, W.Float):
        return float(x)
    return int(x)
