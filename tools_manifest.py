#!/usr/bin/env python3
"""regenerate MANIFEST.json from contracts/__init__.py (PROPS) -- keeps the manifest in sync with what is built"""
import json
import sys

sys.path.insert(0, '/verif')
from contracts import PROPS, NOT_APPLICABLE, LEVEL_TEXT

checks = []
for pid in sorted(PROPS):
    cfg = PROPS[pid]
    lt = LEVEL_TEXT.get(pid, {})
    checks.append({
        'property_id': pid,
        'quick_cmd': './check %s --tier quick' % pid,
        'thorough_cmd': './check %s --tier thorough' % pid,
        'evidence_file': 'evidence/%s.json' % pid,
        'replay_cmd_template': './check %s --replay {path}' % pid,
        'engine': 'PyVC' + ('+CxxVC' if cfg.get('cxx') else ''),
        'level_claimed': {'category': cfg.get('level', 'proof'),
                          'text': lt.get('text', 'contracts on the functions the property depends on; every obligation generated from the current source discharged by z3/cvc5'),
                          'design_ref': 'DESIGN.md section 7 %s, section 12' % pid},
        'level_note': lt.get('note', 'Trusted: PyVC engine semantics, builtin table, shape tables, z3/cvc5. Bounded stand-ins are reported separately and never counted as discharged.'),
        'technique': cfg.get('technique', 'contract-based deductive verification: self-generated VCs from the Python AST (PyVC), discharged by z3/cvc5; bounded stand-in for functions out of reach'),
    })
manifest = {
    'version': 1,
    'setup_cmd': "mkdir -p evidence replays && python3-vt -c 'import z3' && /venv/bin/python -c 'import prophy, prophyc'",
    'hooks': {
        'guard': 'PROPHY_VERIF',
        'enable': 'no hooks: contracts are sidecar files under /verif; nothing in /repo is instrumented',
        'baseline_off_cmd': 'cd /repo && /venv/bin/python -m pytest -ra -q -p no:cacheprovider --timeout=900 --continue-on-collection-errors',
        'source_commits': [],
        'add_only': True,
    },
    'engines': [
        {'name': 'PyVC', 'path': 'vf/', 'serves_properties': sorted(PROPS),
         'kind_free_text': 'VC generator for a Python subset (ast -> z3/cvc5): forward symbolic execution with cut points at annotated loops; sidecar contracts in contracts/, executable spec in specs/'},
        {'name': 'CxxVC', 'path': 'vf/cxxvc.py', 'serves_properties': sorted(p for p in PROPS if PROPS[p].get('static') and any('cxx_check' in x for x in PROPS[p]['static'])),
         'kind_free_text': 'VC generator for a C++ subset over clang JSON ASTs of instantiated header templates and prophyc-generated code (bit-vector semantics, regions for byte memory, contracts in contracts/cxx_*.py), discharged by z3/cvc5'},
        {'name': 'stand-ins', 'path': 'standins/', 'serves_properties': sorted(p for p in PROPS if PROPS[p].get('standins')),
         'kind_free_text': 'bounded differential harnesses (real prophyc/prophy vs executable spec over an enumerated schema family); labelled bounded, never counted as proved'},
    ],
    'checks': checks,
    'not_applicable': [{'property_id': p, 'reason': r} for p, r in sorted(NOT_APPLICABLE.items())],
    'notes': 'fix: commits in /repo repair genuine defects found by the checks (see known_findings.json); seeded/ holds independently produced property-breaking changes used to test the checks',
}
json.dump(manifest, open('/verif/MANIFEST.json', 'w'), indent=1)
print('claimed', sorted(PROPS), 'n/a', sorted(NOT_APPLICABLE))
